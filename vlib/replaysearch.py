"""Replay search: after Verus refutes (fails to prove) an obligation of a parser/lexer unit, look for a concrete failing input on
the REAL code of the tree under check, so that the VIOLATION line can carry it.  Verus itself gives no counterexample.

A scratch copy of the sources (outside /repo and /verif) gets replay/psearch/verif_search.rs as an integration test of the parser
crate; it is built offline, run under a time budget, and removed.  Finding nothing is normal (then the VIOLATION line ends with
`no-failing-input-found`)."""
import os
import re
import shutil
import subprocess
import tempfile

PARSER_UNITS = {"u_pcore", "u_grammar", "u_tree", "u_input", "u_mls", "u_kind", "u_parse"}
_cache = {}


# units whose obligations have committed replay scripts (`<script> <compiler-binary>`: exit 1 = the defect shows on the real code)
COMPILER_REPLAYS = {
    "u_importname": ["replay/c02/deep_import.sh"],
    "u_tylower": ["replay/c11/pair_callback.sh"],
    "u_tygate": ["replay/c16/trait_sig_imports.sh"],
    "u_closty": ["replay/c08/returned_fn.sh"],
    "u_validty": ["replay/c04/fn_result_arity.sh"],
    "u_gotypedoc": ["replay/c02/second_order.sh"],
    "u_anf": ["replay/c09/anf_order.sh"],
    "u_diagord": ["replay/c13/missing_methods/run.sh", "replay/c13/unknown_fields/run.sh"],
    "u_occurs": ["replay/c04/occurs/run.sh"],
    "u_tmono": ["replay/c07/run.sh", "replay/c04/recursive_generic/run.sh", "replay/c07/field_type_app.sh", "replay/c07/instance_user_type.sh"],
    "u_mcall": ["replay/c07/call_instances.sh", "replay/c07/generic_value.sh", "replay/c07/generic_value_in_generic.sh"],
    "u_link": ["replay/c13/link_error/run.sh"],
    "u_art": ["replay/c15/foreign_core.sh"],
    "u_scope": ["replay/c05/run.sh", "replay/c05/shadow_toplevel.sh", "replay/c05/duplicate_params.sh", "replay/c05/ctor_shadows_param.sh", "replay/c06/crossfile_ctor.sh", "replay/c16/let_annotation.sh"],
    "u_closenv": ["replay/c08/run.sh"],
    "u_envname": ["replay/c08/env_names.sh", "replay/c19/closure_env_user_type.sh"],
    "u_encodety": ["replay/c19/vtable_name_collision.sh"],
    "u_refname": ["replay/c19/ref_cell_case.sh"],
    "u_dynnames": ["replay/c19/dyn_helper_kinds.sh"],
    "u_tuplehelper": ["replay/c19/tuple_helper_user_type.sh"],
    "u_liftty": ["replay/c08/nested_tuple.sh", "replay/c08/closure_callee.sh", "replay/c08/closure_returns_closure.sh", "replay/c08/nested_tuple_literal.sh"],
    "u_tastlit": ["replay/c10/run.sh"],
    "u_fmtverb": ["replay/c10/float_to_string.sh"],
    "u_corefloat": ["replay/c14/core_float.sh"],
    "u_block": ["replay/c17/method_value.sh"],
    "u_dynpayload": ["replay/c17/dyn_numeric_literal.sh"],
    "u_dynimpl": ["replay/c17/dyn_generic_instance.sh"],
    "u_traitname": ["replay/c17/trait_type_name.sh"],
    "u_inherent": ["replay/c17/dup_inherent.sh", "replay/c17/overlap_inherent.sh", "replay/c17/variant_method.sh"],
    "u_calllower": ["replay/c11/paren_call.sh", "replay/c11/neg_nullary.sh", "replay/c11/tuple_nested.sh"],
    "u_ceffect": ["replay/c04/go_fn_value.sh"],
    "u_mls": ["replay/c12/multiline_crlf.sh"],
    "u_hirorder": ["replay/c13/hir_order.sh"],
    "u_goident": ["replay/c19/predeclared.sh", "replay/c19/init_main0.sh"],
    "u_entryname": ["replay/c19/lib_main.sh"],
    "u_reserved": ["replay/c19/builtin_name.sh", "replay/c19/user_missing.sh"],
    "u_gensym": ["replay/c19/gensym_capture.sh"],
    "u_varname": ["replay/c19/shared_variant.sh", "replay/c02/variant_named_as_type.sh"],
    "u_genphase": ["replay/c19/phase_temps.sh"],
    "u_gopkgs": ["replay/c02/unused_import.sh"],
    "u_rttypes": ["replay/c02/undefined_tuple.sh"],
    "u_swbind": ["replay/c02/switch_binding.sh"],
    "u_dynvt": ["replay/c02/dyn_reserved_method.sh"],
    "u_dceblk": ["replay/c02/bare_builtin_stmt.sh", "replay/c09/run.sh"],
    "u_dcelive": ["replay/c02/unused_local.sh"],
    "u_arrset": ["replay/c02/array_set_let.sh"],
    "u_fieldnames": ["replay/c02/struct_field_names.sh"],
    "u_constrname": ["replay/c04/tparam_app.sh"],
    "u_placeholder": ["replay/c04/placeholder_field.sh"],
    "u_report": ["replay/c04/lower_error_in_dep.sh"],
    "u_derive": ["replay/c18/prim_fields.sh"],
    "u_patlit": ["replay/c03/run.sh"],
    "u_annot": ["replay/c03/annotations.sh"],
    "u_optypes": ["replay/c03/struct_operands.sh"],
    "u_binop": ["replay/c09/short_circuit.sh"],
    "u_dcefx": ["replay/c10/dead_division.sh"],
    "u_strlit": ["replay/c11/run.sh"],
    "u_dynvis": ["replay/c17/run.sh", "replay/c17/dyn_coerce.sh"],
    "u_rows": ["replay/c06/run.sh", "replay/c06/struct_fields.sh", "replay/c06/string_no_default.sh"],
    "u_loadpkg": ["replay/c16/run.sh", "replay/c16/reserved_builtin.sh", "replay/c13/relpath.sh", "replay/c12/sibling_parse_error.sh"],
    "u_deprec": ["replay/c16/self_import.sh"],
    "u_orphan": ["replay/c16/dup_impl.sh"],
}


def compiler_replay(root, rec):
    """build the compiler of the tree under check in a scratch directory and run the unit's committed replay scripts against it"""
    key = "compiler:" + rec.get("module", "")
    if key in _cache:
        return _cache[key]
    repo = os.environ.get("VERIF_REPO", "/repo")
    scratch = tempfile.mkdtemp(prefix="goml-replay-")
    res = None
    try:
        dst = os.path.join(scratch, "repo")
        os.makedirs(dst)
        shutil.copytree(os.path.join(repo, "crates"), os.path.join(dst, "crates"), ignore=shutil.ignore_patterns("target"))
        for fn in ("Cargo.toml", "Cargo.lock"):
            src = os.path.join(repo, fn)
            if not os.path.exists(src):
                src = os.path.join("/repo", fn)
            shutil.copy(src, os.path.join(dst, fn))
        env = dict(os.environ, CARGO_NET_OFFLINE="true", CARGO_TARGET_DIR=os.path.join(scratch, "target"))
        b = subprocess.run(["cargo", "build", "-q", "-p", "compiler", "--offline"], cwd=dst, env=env, capture_output=True, text=True, timeout=600)
        binp = os.path.join(scratch, "target", "debug", "compiler")
        if b.returncode == 0 and os.path.exists(binp):
            hits = []
            for sc in COMPILER_REPLAYS[rec["module"]]:
                try:
                    r = subprocess.run([os.path.join(root, sc), binp], capture_output=True, text=True, timeout=180)
                except subprocess.TimeoutExpired:
                    continue
                if r.returncode == 1:
                    hits.append({"kind": "replay-script", "script": sc, "input_debug_escaped": (r.stdout + r.stderr)[-1500:]})
            if hits:
                res = {"how": "committed replay script(s) run against the compiler built from a scratch copy of the tree under check",
                       "inputs_tried": len(COMPILER_REPLAYS[rec["module"]]), "witnesses": hits}
    except Exception as e:
        res = None
        _cache["error"] = repr(e)
    finally:
        shutil.rmtree(scratch, ignore_errors=True)
    _cache[key] = res
    return res


def search(root, prop, rec, f):
    if os.environ.get("VERIF_NO_REPLAY_SEARCH"):
        return None
    if rec.get("module") in COMPILER_REPLAYS:
        w = compiler_replay(root, rec)
        if w or rec.get("module") not in PARSER_UNITS:
            return w
    if rec.get("module") not in PARSER_UNITS or prop not in ("C04", "C12"):
        return None
    if "result" in _cache:
        return _cache["result"]
    repo = os.environ.get("VERIF_REPO", "/repo")
    scratch = tempfile.mkdtemp(prefix="goml-replay-")
    res = None
    try:
        dst = os.path.join(scratch, "repo")
        os.makedirs(dst)
        shutil.copytree(os.path.join(repo, "crates"), os.path.join(dst, "crates"), ignore=shutil.ignore_patterns("target"))
        for fn in ("Cargo.toml", "Cargo.lock"):
            src = os.path.join(repo, fn)
            if not os.path.exists(src):
                src = os.path.join("/repo", fn)
            shutil.copy(src, os.path.join(dst, fn))
        tdir = os.path.join(dst, "crates", "parser", "tests")
        os.makedirs(tdir, exist_ok=True)
        shutil.copy(os.path.join(root, "replay", "psearch", "verif_search.rs"), os.path.join(tdir, "verif_search.rs"))
        env = dict(os.environ, CARGO_NET_OFFLINE="true", CARGO_TARGET_DIR=os.path.join(scratch, "target"),
                   VERIF_SEARCH_SECS=os.environ.get("VERIF_SEARCH_SECS", "45"))
        try:
            r = subprocess.run(["cargo", "test", "-q", "-p", "parser", "--offline", "--test", "verif_search", "--", "--nocapture"],
                               cwd=dst, env=env, capture_output=True, text=True, timeout=420)
            out = r.stdout + r.stderr
        except subprocess.TimeoutExpired as e:
            out = (e.stdout or "") + (e.stderr or "") if isinstance(e.stdout, str) else ""
        wit = re.findall(r"WITNESS kind=(\w+) input=(\".*\")", out)
        searched = re.search(r"SEARCHED (\d+)", out)
        if wit:
            res = {"how": "replay/psearch/verif_search.rs run against a scratch copy of the tree under check (real parser::parse)",
                   "inputs_tried": int(searched.group(1)) if searched else None,
                   "witnesses": [{"kind": k, "input_debug_escaped": v[:4000]} for k, v in wit]}
    except Exception as e:  # never let the search break the report
        res = None
        _cache["error"] = repr(e)
    finally:
        shutil.rmtree(scratch, ignore_errors=True)
    _cache["result"] = res
    return res


def witness_reproduces(root, kf):
    return True


def replay(d):
    w = d.get("failing_input")
    if not w:
        print("no executable witness recorded for this obligation; re-run the check to re-verify it")
        return 1
    if any(x.get("kind") == "replay-script" for x in w.get("witnesses", [])):
        for x in w["witnesses"]:
            print(f"witness: /verif/{x['script']} <compiler binary of the tree>  ->\n{x['input_debug_escaped']}")
        return 1
    for x in w.get("witnesses", []):
        print(f"witness ({x['kind']}): parser::parse on {x['input_debug_escaped']}")
    print("to replay: copy /verif/replay/psearch/verif_search.rs into crates/parser/tests/ of the tree and run\n"
          "  cargo test -p parser --offline --test verif_search -- --nocapture")
    return 1
