"""Generic, counted normalisation rules (semantics-preserving desugarings).

Each rule is applied by pattern with balanced-delimiter matching on masked
text; every application is counted into rule_counts[rule] for the evidence.

  T        `T![x]`  ->  `TokenKind::X`   (table parsed from lexer's macro_rules! T each run)
  attrs    strip `#[...]` attributes and `///` doc comments inside the item
           (derive/serde/allow/logos attributes: no run-time meaning for the contracts)
  cell     `.get()` / `.set(v)` on the unit's listed Cell fields -> field read / assignment
  fmtmsg   `format!(..)`, `X.to_string()` where listed -> `rt_msg()` (diagnostic text dropped)
"""
import os
import re

from .rsitems import AnchorLost, mask, match_delim

REPO = os.environ.get("VERIF_REPO", "/repo")


class Context:
    def __init__(self):
        self._t = None
        self.cell_fields = []

    def t_table(self):
        if self._t is None:
            p = os.path.join(REPO, "crates/lexer/src/lib.rs")
            try:
                src = open(p, encoding="utf-8").read()
            except OSError as e:
                raise AnchorLost(str(e))
            i = src.find("macro_rules! T")
            if i < 0:
                raise AnchorLost("lexer: macro_rules! T not found")
            tab = {}
            for mt in re.finditer(r"^\s*\[(.+?)\]\s*=>\s*\{\s*\$crate::TokenKind::(\w+)\s*\};", src[i:], re.M):
                tab[mt.group(1).strip()] = mt.group(2)
            if len(tab) < 20:
                raise AnchorLost("lexer: T! table too small")
            self._t = tab
        return self._t


def rule_T(text, ctx, where):
    tab = ctx.t_table()
    n = 0

    def rep(mt):
        nonlocal n
        key = mt.group(1).strip()
        if key not in tab:
            raise AnchorLost(f"{where}: T![{key}] not in lexer's table")
        n += 1
        return "TokenKind::" + tab[key]

    # T!['('] forms contain a char literal; handle both
    out = re.sub(r"\bT!\[('.'|[^\]]+?)\]", rep, text)
    return out, n


def rule_attrs(text, ctx, where):
    m = mask(text)
    out = []
    i = 0
    n = 0
    for mt in re.finditer(r"#\s*!?\s*\[", m):
        if mt.start() < i:
            continue
        b = mt.end() - 1
        e = match_delim(m, b)
        out.append(text[i:mt.start()])
        i = e + 1
        n += 1
    out.append(text[i:])
    t = "".join(out)
    t2 = re.sub(r"^[ \t]*///.*\n", "", t, flags=re.M)
    return t2, n


def rule_cell(text, ctx, where):
    n = 0
    for f in ctx.cell_fields:
        # self.f.set(EXPR);  -> self.f = EXPR;
        m = mask(text)
        pat = re.compile(r"\b(self|p)\." + re.escape(f) + r"\.set\(")
        while True:
            m = mask(text)
            mt = pat.search(m)
            if not mt:
                break
            b = mt.end() - 1
            e = match_delim(m, b)
            text = text[:mt.start()] + f"{mt.group(1)}.{f} = " + text[b + 1:e] + text[e + 1:]
            n += 1
        text, k = re.subn(r"\b(self|p)\." + re.escape(f) + r"\.get\(\)", r"\1." + f, text)
        n += k
        # constructor site:  `f: Cell::new(X)`  ->  `f: X`
        while True:
            m = mask(text)
            mt = re.search(r"\b" + re.escape(f) + r"\s*:\s*Cell::new\(", m)
            if not mt:
                break
            b = mt.end() - 1
            e = match_delim(m, b)
            text = text[:mt.start()] + f"{f}: " + text[b + 1:e] + text[e + 1:]
            n += 1
    return text, n


def rule_pubfields(text, ctx, where):
    """struct fields: add `pub` where missing (visibility has no run-time meaning; contracts must name the fields)"""
    m = mask(text)
    b = m.find("{")
    if b < 0 or not re.search(r"\bstruct\b", m[:b]):
        return text, 0
    e = match_delim(m, b)
    out, n, depth, i = [text[:b + 1]], 0, 0, b + 1
    seg_start = i
    # split fields at depth-0 commas inside the struct body
    j = i
    fields = []
    while j < e:
        c = m[j]
        if c in "([{<":
            depth += 1
        elif c in ")]}>":
            if not (c == ">" and m[j - 1] == "-"):
                depth -= 1
        elif c == "," and depth == 0:
            fields.append((seg_start, j + 1))
            seg_start = j + 1
        j += 1
    fields.append((seg_start, e))
    for (a, z) in fields:
        seg = text[a:z]
        mt = re.match(r"((?:\s|//[^\n]*\n)*)(pub(\s*\([^)]*\))?\s+)?([A-Za-z_]\w*\s*:)", seg)
        if mt and not mt.group(2):
            seg = mt.group(1) + "pub " + seg[mt.end(1):]
            n += 1
        elif mt and mt.group(3):
            seg = mt.group(1) + "pub " + seg[mt.end(2):]
            n += 1
        out.append(seg)
    out.append(text[e:])
    res = "".join(out)
    if not re.match(r"\s*pub\b", res):
        res = "pub " + res.lstrip()
        n += 1
    return res, n


def rule_fmtmsg(text, ctx, where):
    """`format!(...)` -> `rt_msg()`: diagnostic message text is dropped (an arbitrary String)"""
    n = 0
    while True:
        m = mask(text)
        mt = re.search(r"\bformat!\s*\(", m)
        if not mt:
            break
        b = mt.end() - 1
        e = match_delim(m, b)
        text = text[:mt.start()] + "rt_msg()" + text[e + 1:]
        n += 1
    return text, n


def rule_fmt_concat(text, ctx, where):
    """`format!("l0{}l1{}l2", a, b)` (a literal with plain `{}` placeholders) -> `fmt_cat(fmt_cat(fmt_lit("l0"), &(a)).., "l1") ..`: the literal pieces and the
    `Display` texts of the arguments concatenated in order (shim trait FmtArg: String / &str as their text, usize / u32 as their decimal text); any other
    format string (width, `{:?}`, named arguments) is left alone — and then does not compile"""
    n = 0
    pos = 0
    while True:
        m = mask(text)
        mt = re.search(r"\bformat!\s*\(", m[pos:])
        if not mt:
            break
        s = pos + mt.start()
        b = pos + mt.end() - 1
        e = match_delim(m, b)
        inner = text[b + 1:e]
        mi = mask(inner)
        parts, depth, last = [], 0, 0
        for i, ch in enumerate(mi):
            if ch in "([{":
                depth += 1
            elif ch in ")]}":
                depth -= 1
            elif ch == "," and depth == 0:
                parts.append(inner[last:i])
                last = i + 1
        parts.append(inner[last:])
        parts = [x.strip() for x in parts if x.strip() != ""]
        ms = re.fullmatch(r'"((?:[^"\\]|\\.)*)"', parts[0]) if parts else None
        if not ms or "\\" in ms.group(1) or re.search(r"\{[^}]", ms.group(1)):
            pos = e + 1
            continue
        lits = ms.group(1).split("{}")
        args = parts[1:]
        if len(lits) != len(args) + 1:
            pos = e + 1
            continue
        out = f'fmt_lit("{lits[0]}")'
        for k, a in enumerate(args):
            out = f"fmt_arg({out}, &({a}))"
            if lits[k + 1]:
                out = f'fmt_str({out}, "{lits[k + 1]}")'
        text = text[:s] + out + text[e + 1:]
        pos = s + len(out)
        n += 1
    return text, n


def rule_mutself(text, ctx, where):
    """`fn f(mut self, ..) { B }` -> `fn f(self, ..) { let mut self_ = self; B[self := self_] }` (Verus lacks `mut self`)"""
    m = mask(text)
    mt = re.search(r"\(\s*mut\s+self\b", m)
    if not mt:
        return text, 0
    b = m.index("{", mt.end())
    # body open = first top-level brace after the signature
    from .rsitems import find_top_level
    b = find_top_level(m, m.index("fn "), "{")
    head = text[:b + 1].replace("mut self", "self", 1)
    body = text[b + 1:]
    mb = m[b + 1:]
    out, last, n = [], 0, 0
    for x in re.finditer(r"(?<![A-Za-z0-9_])self(?![A-Za-z0-9_])", mb):
        out.append(body[last:x.start()])
        out.append("self_")
        last = x.end()
        n += 1
    out.append(body[last:])
    return head + "\n    let mut self_ = self;" + "".join(out), 1


def _receiver_start(m, dot):
    """m masked text, dot = index of the '.' that starts `.iter()`/`.as_ref()`; walk back over a simple
    place expression  ident(.ident)*  ; returns its start or raises"""
    j = dot
    while j > 0 and (m[j - 1].isalnum() or m[j - 1] in "_."):
        j -= 1
    # allow the receiver to sit on the previous line(s): `expr\n    .as_ref()`
    if j == dot:
        k = dot
        while k > 0 and m[k - 1].isspace():
            k -= 1
        j = k
        while j > 0 and (m[j - 1].isalnum() or m[j - 1] in "_."):
            j -= 1
        if j == k:
            raise AnchorLost("iterator rule: receiver is not a simple place expression")
    return j


def _split_closure(arg):
    """arg: text of a closure `|PAT| BODY` or a function path. returns (pat, body) ; for a path F: ("__x", "F(__x)")"""
    a = arg.strip()
    if a.startswith("|"):
        e = a.index("|", 1)
        return a[1:e].strip(), a[e + 1:].strip()
    if re.fullmatch(r"[A-Za-z_][\w:]*", a):
        return "__x", f"{a}(__x)"
    raise AnchorLost(f"iterator rule: unsupported callable {a[:40]!r}")


def rule_iter_any(text, ctx, where):
    """`X.iter().any(F)`  ->  index loop with early exit (std's `Iterator::any` on a slice iterator,
    assumed semantics: true iff F holds for some element, elements visited in order, stops at the first hit)"""
    n = 0
    while True:
        m = mask(text)
        mt = re.search(r"\s*\.iter\(\)\s*\.any\(", m)
        if not mt:
            break
        dot = m.index(".", mt.start())
        s0 = _receiver_start(m, dot if mt.start() == dot else mt.start())
        recv = text[s0:mt.start()].strip()
        b = mt.end() - 1
        e = match_delim(m, b)
        pat, body = _split_closure(text[b + 1:e])
        i, r = f"__i{n}", f"__r{n}"
        rep = (f"({{ let mut {i}: usize = 0; let mut {r} = false; "
               f"while {i} < {recv}.len() {{ let {pat} = &{recv}[{i}]; if {body} {{ {r} = true; break; }} {i} += 1; }} {r} }})")
        text = text[:s0] + rep + text[e + 1:]
        n += 1
    return text, n


def rule_iter_find_map_fn(text, ctx, where):
    """`X.iter().find_map(|PAT| BODY)` -> index loop with early exit: the first `Some` that BODY yields, elements visited in order, `None` when
    there is none (std's `Iterator::find_map` on a slice iterator, assumed semantics)"""
    n = 0
    while True:
        m = mask(text)
        mt = re.search(r"\s*\.iter\(\)\s*\.find_map\(", m)
        if not mt:
            break
        dot = m.index(".", mt.start())
        s0 = _receiver_start(m, dot if mt.start() == dot else mt.start())
        recv = text[s0:mt.start()].strip()
        b = mt.end() - 1
        e = match_delim(m, b)
        pat, body = _split_closure(text[b + 1:e])
        i, r = f"__fmi{n}", f"__fmr{n}"
        rep = (f"({{ let mut {i}: usize = 0; let mut {r} = None; "
               f"while {i} < {recv}.len() {{ let {pat} = &{recv}[{i}]; let __fmv = {body}; if __fmv.is_some() {{ {r} = __fmv; break; }} {i} += 1; }} {r} }})")
        text = text[:s0] + rep + text[e + 1:]
        n += 1
    return text, n


def rule_iter_all(text, ctx, where):
    """`X.iter().all(F)`  ->  index loop with early exit (std's `Iterator::all` on a slice iterator, assumed semantics:
    true iff F holds for every element, elements visited in order, stops at the first failure)"""
    n = 0
    while True:
        m = mask(text)
        mt = re.search(r"\s*\.iter\(\)\s*\.all\(", m)
        if not mt:
            break
        dot = m.index(".", mt.start())
        s0 = _receiver_start(m, dot if mt.start() == dot else mt.start())
        recv = text[s0:mt.start()].strip()
        b = mt.end() - 1
        e = match_delim(m, b)
        pat, body = _split_closure(text[b + 1:e])
        i, r = f"__j{n}", f"__q{n}"
        rep = (f"({{ let mut {i}: usize = 0; let mut {r} = true; "
               f"while {i} < {recv}.len() {{ let {pat} = &{recv}[{i}]; if !({body}) {{ {r} = false; break; }} {i} += 1; }} {r} }})")
        text = text[:s0] + rep + text[e + 1:]
        n += 1
    return text, n


def rule_iter_rfind_map(text, ctx, where):
    """`X.iter().rfind(|PAT| COND).map(|PAT2| E)` -> scan from the back: the LAST element satisfying COND, mapped by E
    (std semantics of DoubleEndedIterator::rfind + Option::map assumed).  PAT is the closure's pattern for `&&T`: a leading
    `&` is dropped because the loop binds `&X[k]` (one reference less)."""
    n = 0
    while True:
        m = mask(text)
        mt = re.search(r"\s*\.iter\(\)\s*\.rfind\(", m)
        if not mt:
            break
        dot = m.index(".", mt.start())
        s0 = chain_start(m, dot)
        recv = text[s0:mt.start()].strip()
        b = mt.end() - 1
        e = match_delim(m, b)
        pat, cond = _split_closure(text[b + 1:e])
        m2 = re.match(r"\s*\.map\(", m[e + 1:])
        if not m2:
            raise AnchorLost(f"{where}: iter().rfind(..) not followed by .map(..)")
        b2 = e + 1 + m2.end() - 1
        e2 = match_delim(m, b2)
        pat2, body2 = _split_closure(text[b2 + 1:e2])
        k, f = f"__rk{n}", f"__rf{n}"
        rep = (f"{{ let mut {k}: usize = {recv}.len(); let mut {f} = None; while {k} > 0 {{ {k} -= 1; let {pat} = {recv}.index({k}); "
               f"if {cond} {{ let {pat2} = {recv}.index({k}); {f} = Some({body2}); break; }} }} {f} }}")
        text = text[:s0] + rep + text[e2 + 1:]
        n += 1
    return text, n


def rule_iter_find_map(text, ctx, where):
    """`X.iter().find(|PAT| COND).map(|PAT2| E)` -> scan from the front: the FIRST element satisfying COND, mapped by E
    (std semantics of Iterator::find + Option::map assumed)"""
    n = 0
    while True:
        m = mask(text)
        mt = re.search(r"\s*\.iter\(\)\s*\.find\(", m)
        if not mt:
            break
        dot = m.index(".", mt.start())
        s0 = chain_start(m, dot)
        recv = text[s0:mt.start()].strip()
        b = mt.end() - 1
        e = match_delim(m, b)
        pat, cond = _split_closure(text[b + 1:e])
        m2 = re.match(r"\s*\.map\(", m[e + 1:])
        if not m2:
            raise AnchorLost(f"{where}: iter().find(..) not followed by .map(..)")
        b2 = e + 1 + m2.end() - 1
        e2 = match_delim(m, b2)
        pat2, body2 = _split_closure(text[b2 + 1:e2])
        k, f = f"__fk{n}", f"__ff{n}"
        rep = (f"{{ let mut {k}: usize = 0; let mut {f} = None; while {k} < {recv}.len() {{ let {pat} = {recv}.index({k}); "
               f"if {cond} {{ let {pat2} = {recv}.index({k}); {f} = Some({body2}); break; }} {k} += 1; }} {f} }}")
        text = text[:s0] + rep + text[e2 + 1:]
        n += 1
    return text, n


STR_METHODS = "strip_prefix|strip_suffix|trim_matches|trim_start_matches|trim_end_matches|trim_end|trim_start|trim"


def rule_str_methods(text, ctx, where):
    """`RECV.strip_prefix(A)`, `.strip_suffix(A)`, `.trim_matches(A)`, `.trim_start_matches(A)`, `.trim_end()`, `.trim_start()`,
    `.trim()` on a str -> shim functions `str_<method>[_char|_str|_chars](&RECV, A)` carrying std's semantics as assumed
    contracts (Verus has no specification for these str methods)"""
    n = 0
    while True:
        m = mask(text)
        mt = re.search(r"\.\s*(" + STR_METHODS + r")\s*\(", m)
        if not mt:
            break
        b = mt.end() - 1
        e = match_delim(m, b)
        s0 = chain_start(m, mt.start())
        recv = text[s0:mt.start()].strip()
        arg = text[b + 1:e].strip()
        kind = "" if not arg else {"'": "_char", '"': "_str", "[": "_chars"}.get(arg[0])
        if kind is None:
            raise AnchorLost(f"{where}: str method {mt.group(1)} with an argument of unknown kind: {arg[:30]!r}")
        if kind == "_chars":
            items = [x.strip() for x in arg[1:-1].split(",") if x.strip()]
            if len(items) != 2:
                raise AnchorLost(f"{where}: str method {mt.group(1)} with a char array of {len(items)} elements (only 2 supported)")
            kind, arg = "_2", ", ".join(items)
        call = f"str_{mt.group(1)}{kind}(&{recv}" + (f", {arg})" if arg else ")")
        text = text[:s0] + call + text[e + 1:]
        n += 1
        if n > 200:
            raise AnchorLost(f"{where}: str_methods rule does not terminate")
    return text, n


def rule_opt_and_then(text, ctx, where):
    """`X.and_then(|v| E)` on an Option -> `(match X { Some(v) => E, None => None })`"""
    def build(recv, arg):
        pat, body = _split_closure(arg)
        return f"(match {recv} {{ Some({pat}) => {body}, None => None }})"
    return _opt_method(text, "and_then", build, where)


def rule_vec_retain(text, ctx, where):
    """`V.retain(|PAT| BODY);` -> take the vector, then re-push, in order, exactly the elements for which BODY (evaluated once
    per element, in order) is true (std semantics of Vec::retain assumed; BODY may mutate other state, as the original closure does)"""
    n = 0
    while True:
        m = mask(text)
        mt = re.search(r"\.\s*retain\s*\(", m)
        if not mt:
            break
        b = mt.end() - 1
        e = match_delim(m, b)
        s0 = chain_start(m, mt.start())
        recv = text[s0:mt.start()].strip()
        pat, body = _split_closure(text[b + 1:e])
        semi = m.find(";", e)
        if semi < 0 or m[e + 1:semi].strip():
            raise AnchorLost(f"{where}: retain(..) not used as a statement")
        o, x, k = f"__ro{n}", f"__rx{n}", f"__rk{n}"
        rep = (f"{{ let mut {o} = vec_take(&mut {recv}); while {o}.len() > 0 {{ let {x} = {o}.remove(0); "
               f"let {k}: bool = {{ let {pat} = &{x}; {body} }}; if {k} {{ {recv}.push({x}); }} }} }}")
        text = text[:s0] + rep + text[semi + 1:]
        n += 1
    return text, n


def rule_iter_map_collect(text, ctx, where):
    """`X.iter().map(|t| E).collect()` -> a block that pushes E for every element, in order, into a fresh Vec
    (std semantics of map+collect into Vec assumed)"""
    n = 0
    while True:
        m = mask(text)
        mt = re.search(r"\.iter\(\)\s*\.map\(", m)
        if not mt:
            break
        s0 = chain_start(m, mt.start())
        recv = text[s0:mt.start()].strip()
        b = mt.end() - 1
        e = match_delim(m, b)
        pat, body = _split_closure(text[b + 1:e])
        m2 = re.match(r"\s*\.collect(::<[^()]*?>)?\(\)", m[e + 1:])
        if not m2:
            raise AnchorLost(f"{where}: iter().map(..) not followed by .collect()")
        end = e + 1 + m2.end()
        i, o = f"__mi{n}", f"__mo{n}"
        rep = (f"{{ let mut {o} = Vec::new(); let mut {i}: usize = 0; while {i} < {recv}.len() {{ let {pat} = &{recv}[{i}]; "
               f"let __e = {body}; {o}.push(__e); {i} += 1; }} {o} }}")
        text = text[:s0] + rep + text[end:]
        n += 1
    return text, n


def rule_let_chain(text, ctx, where):
    """`if COND && let PAT = E { B }` (no else) -> `if COND { if let PAT = E { B } }`"""
    n = 0
    while True:
        m = mask(text)
        mt = re.search(r"\bif\s+", m)
        found = None
        for mt in re.finditer(r"\bif\s+", m):
            b = find_top_level_brace(m, mt.end())
            # a brace that closes in front of `=` belongs to a struct pattern (`let P { a, .. } = e`), not to the block
            while b >= 0 and re.match(r"\s*=(?![=>])", m[match_delim(m, b) + 1:]):
                b = find_top_level_brace(m, match_delim(m, b) + 1)
            if b < 0:
                continue
            cond = m[mt.end():b]
            k = cond.rfind("&& let ")
            if k < 0:
                k2 = re.search(r"&&\s*let\s", cond)
                if not k2:
                    continue
                k = k2.start()
            found = (mt, b, k)
            break
        if not found:
            break
        mt, b, k = found
        e = match_delim(m, b)
        after = m[e + 1:e + 12].lstrip()
        if after.startswith("else"):
            raise AnchorLost(f"{where}: let-chain with else branch")
        cond_text = text[mt.end():b]
        left = cond_text[:k].rstrip()
        right = re.sub(r"^&&\s*", "", cond_text[k:]).strip()
        body = text[b:e + 1]
        text = text[:mt.start()] + f"if {left} {{ if {right} {body} }}" + text[e + 1:]
        n += 1
    return text, n


def rule_let_chain_rev(text, ctx, where):
    """`if let PAT = E && COND { B }` (no else) -> `if let PAT = E { if COND { B } }`"""
    n = 0
    while True:
        m = mask(text)
        found = None
        for mt in re.finditer(r"\bif\s+let\s", m):
            b = find_top_level_brace(m, mt.end())
            # a brace that closes in front of `=` belongs to a struct pattern (`let P { a, .. } = e`), not to the block
            while b >= 0 and re.match(r"\s*=(?![=>])", m[match_delim(m, b) + 1:]):
                b = find_top_level_brace(m, match_delim(m, b) + 1)
            if b < 0:
                continue
            cond = m[mt.start() + 2:b]
            # first `&&` at bracket depth 0
            depth, k = 0, -1
            for i, ch in enumerate(cond):
                if ch in "([{":
                    depth += 1
                elif ch in ")]}":
                    depth -= 1
                elif depth == 0 and cond.startswith("&&", i):
                    k = i
                    break
            if k < 0:
                continue
            found = (mt, b, k)
            break
        if not found:
            break
        mt, b, k = found
        e = match_delim(m, b)
        if m[e + 1:e + 12].lstrip().startswith("else"):
            raise AnchorLost(f"{where}: let-chain with else branch")
        cond_text = text[mt.start() + 2:b]
        left = cond_text[:k].strip()
        right = cond_text[k + 2:].strip()
        body = text[b:e + 1]
        text = text[:mt.start()] + f"if {left} {{ if {right} {body} }}" + text[e + 1:]
        n += 1
    return text, n


def find_top_level_brace(m, start):
    depth = 0
    j = start
    while j < len(m):
        c = m[j]
        if c in "([":
            depth += 1
        elif c in ")]":
            depth -= 1
        elif c == "{" and depth == 0:
            return j
        elif c == ";" and depth == 0:
            return -1
        j += 1
    return -1


def rule_entry_or_insert_with(text, ctx, where):
    """`M.entry(K).or_insert_with(|| V);` (result unused) -> `{ let __k = K; if !M.contains_key(&__k) { M.insert(__k, V); } }`"""
    n = 0
    while True:
        m = mask(text)
        mt = re.search(r"\.\s*entry\s*\(", m)
        if not mt:
            break
        b = mt.end() - 1
        e = match_delim(m, b)
        m2 = re.match(r"\s*\.\s*or_insert_with\s*\(", m[e + 1:])
        if not m2:
            raise AnchorLost(f"{where}: entry(..) without or_insert_with")
        b2 = e + 1 + m2.end() - 1
        e2 = match_delim(m, b2)
        semi = e2 + 1
        while semi < len(m) and m[semi].isspace():
            semi += 1
        if semi >= len(m) or m[semi] != ";":
            raise AnchorLost(f"{where}: entry(..).or_insert_with(..) used as a value")
        s0 = chain_start(m, mt.start())
        recv = text[s0:mt.start()].strip()
        key = text[b + 1:e].strip()
        arg = text[b2 + 1:e2].strip()
        if not arg.startswith("||"):
            raise AnchorLost(f"{where}: or_insert_with with a non-closure")
        val = arg[2:].strip()
        text = text[:s0] + f"{{ let __k{n} = {key}; if !{recv}.contains_key(&__k{n}) {{ {recv}.insert(__k{n}, {val}); }} }}" + text[semi + 1:]
        n += 1
    return text, n


def rule_opt_map_or(text, ctx, where):
    """`X.as_ref().map(F).unwrap_or(D)`  ->  `(match X.as_ref() { Some(v) => F(v), None => D })`"""
    n = 0
    while True:
        m = mask(text)
        mt = re.search(r"\s*\.as_ref\(\)\s*\.map\(", m)
        if not mt:
            break
        s0 = _receiver_start(m, mt.start())
        recv = text[s0:mt.start()].strip()
        b = mt.end() - 1
        e = match_delim(m, b)
        pat, body = _split_closure(text[b + 1:e])
        m2 = re.match(r"\s*\.unwrap_or\(", m[e + 1:])
        if not m2:
            raise AnchorLost(f"{where}: opt_map_or: `.map(..)` not followed by `.unwrap_or(..)`")
        b2 = e + 1 + m2.end() - 1
        e2 = match_delim(m, b2)
        dflt = text[b2 + 1:e2].strip()
        rep = f"(match {recv}.as_ref() {{ Some({pat}) => {body}, None => {dflt} }})"
        text = text[:s0] + rep + text[e2 + 1:]
        n += 1
    return text, n


def rule_map_err_q(text, ctx, where):
    """`EXPR.map_err(|e| BODY)?`  ->  `(match EXPR { Ok(__v) => __v, Err(e) => { return Err(BODY); } })`
    (the standard desugaring of `?` after `map_err`; From conversion is the identity here)"""
    n = 0
    while True:
        m = mask(text)
        mt = re.search(r"\s*\.map_err\(", m)
        if not mt:
            break
        b = mt.end() - 1
        e = match_delim(m, b)
        if m[e + 1:e + 2] != "?":
            raise AnchorLost(f"{where}: map_err not followed by `?`")
        # receiver: back to the start of the expression: previous `=` or `;` or `{` at depth 0
        j = mt.start()
        depth = 0
        while j > 0:
            c = m[j - 1]
            if c in ")]}":
                depth += 1
            elif c in "([{":
                if depth == 0:
                    break
                depth -= 1
            elif c in "=;" and depth == 0:
                break
            j -= 1
        recv = text[j:mt.start()].strip()
        pat, body = _split_closure(text[b + 1:e])
        rep = f" (match {recv} {{ Ok(__v) => __v, Err({pat}) => {{ return Err({body}); }} }})"
        text = text[:j] + rep + text[e + 2:]
        n += 1
    return text, n


def rule_ok_or_else_q(text, ctx, where):
    """`E.ok_or_else(|| B)?` -> `(match E { Some(__v) => __v, None => { return Err(B); } })`"""
    n = 0
    while True:
        m = mask(text)
        mt = re.search(r"\.\s*ok_or_else\s*\(", m)
        if not mt:
            break
        b = mt.end() - 1
        e = match_delim(m, b)
        if m[e + 1:e + 2] != "?":
            raise AnchorLost(f"{where}: ok_or_else not followed by `?`")
        s0 = chain_start(m, mt.start())
        recv = text[s0:mt.start()].strip()
        arg = text[b + 1:e].strip()
        if not arg.startswith("||"):
            raise AnchorLost(f"{where}: ok_or_else with a non-closure argument")
        text = text[:s0] + f"(match {recv} {{ Some(__v) => __v, None => {{ return Err({arg[2:].strip()}); }} }})" + text[e + 2:]
        n += 1
    return text, n


def rule_for_index(text, ctx, where):
    """`for X in PLACE {`  ->  `let mut __fk = 0; while __fk < PLACE.len() { let X = &PLACE[__fk]; __fk += 1;`
    where PLACE is a plain identifier path naming a slice/Vec reference (iteration by shared reference, in order).
    `continue` keeps its meaning because the index is advanced at the top of the body."""
    n = 0
    while True:
        m = mask(text)
        mt = re.search(r"\bfor\s+([A-Za-z_]\w*)\s+in\s+&?([A-Za-z_][\w\.]*?)(?:\.iter\(\))?\s*\{", m)
        if not mt:
            break
        x, place = mt.group(1), mt.group(2)
        k = f"__fk{n}"
        rep = f"let mut {k}: usize = 0; while {k} < {place}.len() {{ let {x} = &{place}[{k}]; {k} += 1;"
        text = text[:mt.start()] + rep + text[mt.end():]
        n += 1
    return text, n


def chain_start(m, dot):
    """m masked text; `dot` index of the '.' that starts the method being rewritten. Walk back over the receiver, a
    postfix chain  ident ( '.' ident | '::' ident | '(..)' | '[..]' )*  possibly spread over lines."""
    j = dot
    group_head = None
    while True:
        k = j
        while k > 0 and m[k - 1].isspace():
            k -= 1
        if group_head is not None and not (k > 0 and (m[k - 1].isalnum() or m[k - 1] == "_")):
            return group_head      # a parenthesised group is itself the head of the chain
        group_head = None
        if k > 0 and m[k - 1] in ")]":
            depth, q = 0, k - 1
            while q >= 0:
                if m[q] in ")]}":
                    depth += 1
                elif m[q] in "([{":
                    depth -= 1
                    if depth == 0:
                        break
                q -= 1
            if q < 0:
                raise AnchorLost("receiver chain: unbalanced")
            j = q
            group_head = q
            continue
        if k > 0 and (m[k - 1].isalnum() or m[k - 1] == "_"):
            q = k - 1
            while q > 0 and (m[q - 1].isalnum() or m[q - 1] == "_"):
                q -= 1
            j = q
            k2 = j
            while k2 > 0 and m[k2 - 1].isspace():
                k2 -= 1
            if k2 > 0 and m[k2 - 1] == "." and not (k2 > 1 and m[k2 - 2] == "."):
                j = k2 - 1
                continue
            if k2 > 1 and m[k2 - 2:k2] == "::":
                j = k2 - 2
                continue
            return j
        raise AnchorLost("receiver chain: cannot find start")


def _opt_method(text, name, build, where):
    """rewrite the LAST (innermost-first) occurrence of `RECV.<name>(CLOSURE)` repeatedly"""
    n = 0
    while True:
        m = mask(text)
        hits = [x for x in re.finditer(r"\.\s*" + name + r"\s*\(", m)]
        hits = [x for x in hits if not re.search(r"\.(iter|into_iter|iter_mut|chars|keys|values|lines)\(\)\s*$", m[:x.start()].rstrip() + "")]
        if not hits:
            break
        mt = hits[0]
        b = mt.end() - 1
        e = match_delim(m, b)
        s0 = chain_start(m, mt.start())
        recv = text[s0:mt.start()].strip()
        arg = text[b + 1:e].strip()
        text = text[:s0] + build(recv, arg) + text[e + 1:]
        n += 1
        if n > 200:
            raise AnchorLost(f"{where}: {name} rule does not terminate")
    return text, n


def rule_opt_map(text, ctx, where):
    """`X.map(|v| E)` on an Option -> `(match X { Some(v) => Some(E), None => None })`  (not applied after .iter() etc.)"""
    def build(recv, arg):
        pat, body = _split_closure(arg)
        return f"(match {recv} {{ Some({pat}) => Some({body}), None => None }})"
    return _opt_method(text, "map", build, where)


def rule_opt_is_some_and(text, ctx, where):
    """`X.is_some_and(|v| E)` on an Option -> `(match X { Some(v) => E, None => false })`"""
    def build(recv, arg):
        pat, body = _split_closure(arg)
        return f"(match {recv} {{ Some({pat}) => {body}, None => false }})"
    return _opt_method(text, "is_some_and", build, where)


def rule_opt_is_none_or(text, ctx, where):
    """`X.is_none_or(|v| E)` on an Option -> `(match X { Some(v) => E, None => true })`"""
    def build(recv, arg):
        pat, body = _split_closure(arg)
        return f"(match {recv} {{ Some({pat}) => {body}, None => true }})"
    return _opt_method(text, "is_none_or", build, where)


def rule_opt_unwrap_or_else(text, ctx, where):
    """`X.unwrap_or_else(|| E)` on an Option -> `(match X { Some(__u) => __u, None => E })`"""
    def build(recv, arg):
        a = arg.strip()
        if not a.startswith("||"):
            raise AnchorLost(f"{where}: unwrap_or_else with a non-closure argument")
        return f"(match {recv} {{ Some(__u) => __u, None => {a[2:].strip()} }})"
    return _opt_method(text, "unwrap_or_else", build, where)


def rule_opt_filter(text, ctx, where):
    """`X.filter(|v| E)` on an Option -> `(match X { Some(v) => if E { Some(v) } else { None }, None => None })`  (v is a reference in E, as in std)"""
    def build(recv, arg):
        pat, body = _split_closure(arg)
        return f"(match {recv} {{ Some(__f) => {{ let keep = {{ let {pat} = &__f; {body} }}; if keep {{ Some(__f) }} else {{ None }} }}, None => None }})"
    return _opt_method(text, "filter", build, where)


def rule_map_err_plain(text, ctx, where):
    """`EXPR.map_err(|e| BODY)` (NOT followed by `?`)  ->  `(match EXPR { Ok(__v) => Ok(__v), Err(e) => Err(BODY) })`"""
    def build(recv, arg):
        pat, body = _split_closure(arg)
        return f"(match {recv} {{ Ok(__v) => Ok(__v), Err({pat}) => Err({body}) }})"
    return _opt_method(text, "map_err", build, where)


def rule_opt_or_else(text, ctx, where):
    """`X.or_else(|| E)` on an Option -> `(match X { Some(__o) => Some(__o), None => E })`"""
    def build(recv, arg):
        a = arg.strip()
        if not a.startswith("||"):
            raise AnchorLost(f"{where}: or_else with a non-closure argument")
        return f"(match {recv} {{ Some(__o) => Some(__o), None => {a[2:].strip()} }})"
    return _opt_method(text, "or_else", build, where)


def rule_closure_inline(text, ctx, where):
    """`let f = |a, b| EXPR;` + calls `f(x, y)` with identifier arguments -> the calls are replaced by `(EXPR[a:=x, b:=y])`
    and the `let` is dropped (beta-reduction; sound for expression closures called with plain variables)"""
    n = 0
    while True:
        m = mask(text)
        mt = re.search(r"\blet\s+([a-z_][a-z_0-9]*)\s*=\s*\|([^|]*)\|", m)
        if not mt:
            break
        name = mt.group(1)
        params = [a.split(":")[0].strip() for a in text[mt.start(2):mt.end(2)].split(",") if a.strip()]
        # body: up to the `;` at depth 0
        j, depth = mt.end(), 0
        while j < len(m):
            c = m[j]
            if c in "([{":
                depth += 1
            elif c in ")]}":
                depth -= 1
            elif c == ";" and depth == 0:
                break
            j += 1
        body = text[mt.end():j].strip()
        if body.startswith("{") or body.startswith("->"):
            raise AnchorLost(f"{where}: closure {name} is not a plain expression closure")
        rest = text[j + 1:]
        mrest = mask(rest)
        out, last = [], 0
        for c in re.finditer(r"(?<![A-Za-z0-9_\.])" + re.escape(name) + r"\s*\(", mrest):
            b = c.end() - 1
            e = match_delim(mrest, b)
            actuals = [a.strip() for a in rest[b + 1:e].split(",") if a.strip()]
            if len(actuals) != len(params) or not all(re.fullmatch(r"[A-Za-z_][\w\.]*", a) for a in actuals):
                raise AnchorLost(f"{where}: closure {name} called with non-variable arguments")
            inst = body
            for pa, ac in zip(params, actuals):
                inst = re.sub(r"(?<![A-Za-z0-9_\.])" + re.escape(pa) + r"(?![A-Za-z0-9_])", ac, inst)
            out.append(rest[last:c.start()])
            out.append("(" + inst + ")")
            last = e + 1
        out.append(rest[last:])
        new_rest = "".join(out)
        if re.search(r"(?<![A-Za-z0-9_\.])" + re.escape(name) + r"(?![A-Za-z0-9_])", mask(new_rest)):
            raise AnchorLost(f"{where}: closure {name} used as a value")
        text = text[:mt.start()] + new_rest
        n += 1
    return text, n


def rule_msg_to_string(text, ctx, where):
    """`"literal".to_string()` -> `rt_msg()` (diagnostic message text dropped)"""
    return re.subn(r'"(?:[^"\\]|\\.)*"\.to_string\(\)', "rt_msg()", text)


def rule_for_consume(text, ctx, where):
    """`for X in V {` (V a Vec taken by value, listed in ctx.consume) -> drain from the front, in order"""
    n = 0
    for v in getattr(ctx, "consume", []):
        pat = re.compile(r"\bfor\s+([A-Za-z_]\w*)\s+in\s+" + re.escape(v) + r"\s*\{")
        m = mask(text)
        mt = pat.search(m)
        if mt:
            x = mt.group(1)
            text = text[:mt.start()] + f"let mut __cv{n} = {v}; while __cv{n}.len() > 0 {{ let {x} = __cv{n}.remove(0);" + text[mt.end():]
            n += 1
    return text, n


def rule_for_into_iter(text, ctx, where):
    """`for PAT in V.into_iter() {` (V an owned Vec) -> drain from the front, in order: `while V'.len() > 0 { let PAT = V'.remove(0);`"""
    n = 0
    while True:
        m = mask(text)
        mt = re.search(r"\bfor\s+(\([^)]*\)|[A-Za-z_]\w*)\s+in\s+([A-Za-z_]\w*)\.into_iter\(\)\s*\{", m)
        if not mt:
            break
        pat = text[mt.start(1):mt.end(1)]
        v = mt.group(2)
        cv = f"__iv{n}"
        text = text[:mt.start()] + f"let mut {cv} = {v}; while {cv}.len() > 0 {{ let {pat} = {cv}.remove(0);" + text[mt.end():]
        n += 1
    return text, n


def rule_for_entries(text, ctx, where):
    """`for (a, b) in M.iter() {` over a map -> loop over `M.entries()` (a Vec of (&K, &V) pairs in the map's iteration order,
    which the shim leaves unspecified for hash maps)"""
    n = 0
    while True:
        m = mask(text)
        mt = re.search(r"\bfor\s+\(\s*([A-Za-z_]\w*)\s*,\s*([A-Za-z_]\w*)\s*\)\s+in\s+([A-Za-z_][\w\.]*)\.iter\(\)\s*\{", m)
        if not mt:
            break
        a, b, mp = mt.group(1), mt.group(2), mt.group(3)
        es, ek = f"__es{n}", f"__ek{n}"
        text = (text[:mt.start()] + f"let {es} = {mp}.entries(); let mut {ek}: usize = 0; while {ek} < {es}.len() {{ let ({a}, {b}) = {es}[{ek}]; {ek} += 1;"
                + text[mt.end():])
        n += 1
    return text, n


def rule_for_zip(text, ctx, where):
    """`for (a, b) in X.iter().zip(Y.iter()) {` -> index loop over the common prefix (std `zip` stops at the shorter one)"""
    n = 0
    while True:
        m = mask(text)
        mt = re.search(r"\bfor\s+\(\s*([A-Za-z_]\w*)\s*,\s*([A-Za-z_]\w*)\s*\)\s+in\s+([A-Za-z_][\w\.]*)\.iter\(\)\.zip\(\s*([A-Za-z_][\w\.]*)\.iter\(\)\s*\)\s*\{", m)
        if not mt:
            break
        a, b, x, y = mt.groups()
        k = f"__zk{n}"
        text = (text[:mt.start()] + f"let mut {k}: usize = 0; while {k} < {x}.len() && {k} < {y}.len() {{ let {a} = &{x}[{k}]; let {b} = &{y}[{k}]; {k} += 1;"
                + text[mt.end():])
        n += 1
    return text, n


def rule_assert_partial(text, ctx, where):
    """PARTIAL mode: `assert!(E);` / `debug_assert!(E);` -> `{ let __aN = E; proof { assume(__aN); } }`
    (E is still evaluated, with its effects; what follows is proved only for executions where the assertion held)"""
    n = 0
    while True:
        m = mask(text)
        mt = re.search(r"\b(debug_)?assert!\s*\(", m)
        if not mt:
            break
        b = mt.end() - 1
        e = match_delim(m, b)
        semi = e + 1
        while semi < len(m) and m[semi].isspace():
            semi += 1
        if semi >= len(m) or m[semi] != ";":
            raise AnchorLost(f"{where}: assert! not used as a statement")
        inner = text[b + 1:e]
        # drop a trailing message argument:  assert!(cond, "msg", ..)  -> cond   (split at depth-0 comma)
        mi = mask(inner)
        depth, cut = 0, None
        for k, ch in enumerate(mi):
            if ch in "([{":
                depth += 1
            elif ch in ")]}":
                depth -= 1
            elif ch == "," and depth == 0:
                cut = k
                break
        cond = inner if cut is None else inner[:cut]
        text = text[:mt.start()] + f"{{ let __a{n} = {cond.strip()}; proof {{ assume(__a{n}); }} }}" + text[semi + 1:]
        n += 1
    return text, n


def rule_unreachable_partial(text, ctx, where):
    """PARTIAL mode: `unreachable!()` -> `{ proof { assume(false); } unreachable!() }` (reaching it is a panic, not a wrong
    result; what is proved holds for executions that do not reach it)"""
    n = len(re.findall(r"\bunreachable!\(\)", mask(text)))
    text = re.sub(r"\bunreachable!\(\)", "{ proof { assume(false); } unreachable!() }", text)
    return text, n


def rule_box_as_ref(text, ctx, where):
    """`IDENT.as_ref()` on a Box (not followed by `.map(`) -> `box_as_ref(&IDENT)` (prelude shim: the boxed value itself)"""
    return re.subn(r"\b([a-z_][a-z_0-9]*)\.as_ref\(\)(?!\s*\.map\()", r"box_as_ref(&\1)", text)


def rule_mem_take(text, ctx, where):
    """`std::mem::take(&mut V)` -> `vec_take(&mut V)` (shim for Vec: returns the old contents and leaves V empty, which is
    what `Vec::default()` is; any other type is a type error -> UNDECIDED)"""
    return re.subn(r"\b(?:std::|core::)?mem::take\(\s*&mut\s+", "vec_take(&mut ", text)


RULES = {"fmt_concat": rule_fmt_concat, "opt_filter": rule_opt_filter, "opt_unwrap_or_else": rule_opt_unwrap_or_else, "iter_find_map_fn": rule_iter_find_map_fn, "opt_is_none_or": rule_opt_is_none_or, "map_err_plain": rule_map_err_plain, "opt_is_some_and": rule_opt_is_some_and, "mem_take": rule_mem_take, "box_as_ref": rule_box_as_ref, "vec_retain": rule_vec_retain, "str_methods": rule_str_methods, "opt_and_then": rule_opt_and_then, "let_chain_rev": rule_let_chain_rev, "iter_find_map": rule_iter_find_map, "iter_rfind_map": rule_iter_rfind_map, "iter_all": rule_iter_all, "let_chain": rule_let_chain, "entry_or_insert_with": rule_entry_or_insert_with, "for_into_iter": rule_for_into_iter, "iter_map_collect": rule_iter_map_collect, "ok_or_else_q": rule_ok_or_else_q, "for_zip": rule_for_zip, "msg_to_string": rule_msg_to_string, "for_consume": rule_for_consume, "for_entries": rule_for_entries, "opt_map": rule_opt_map, "opt_or_else": rule_opt_or_else, "closure_inline": rule_closure_inline, "unreachable_partial": rule_unreachable_partial, "assert_partial": rule_assert_partial, "for_index": rule_for_index, "map_err_q": rule_map_err_q, "iter_any": rule_iter_any, "opt_map_or": rule_opt_map_or, "mutself": rule_mutself, "fmtmsg": rule_fmtmsg, "pubfields": rule_pubfields, "T": rule_T, "attrs": rule_attrs, "cell": rule_cell}


def apply_rules(text, rules, ctx, counts, where):
    for r in rules:
        if isinstance(r, tuple) and r[0] == "strip":
            k = text.count(r[1])
            text = text.replace(r[1], "")
            counts["strip " + r[1]] = counts.get("strip " + r[1], 0) + k
            continue
        if isinstance(r, tuple) and r[0] == "cps":
            # continuation-passing code: call-site normal form (vlib/cps.py); r[1] is the unit's annotation callable
            from . import cps
            text, n = cps.cps_normal_form(text, r[1], where)
            counts["cps"] = counts.get("cps", 0) + n
            continue
        if isinstance(r, tuple) and r[0] == "consume":
            ctx.consume = list(r[1])
            fn = rule_for_consume
            text, n = fn(text, ctx, where)
            counts["for_consume"] = counts.get("for_consume", 0) + n
            continue
        if isinstance(r, tuple) and r[0] == "consume_into":
            # `for X in V {` where V is an owned Vec local -> drain from the front
            n = 0
            for v in r[1]:
                m = mask(text)
                mt = re.search(r"\bfor\s+([A-Za-z_]\w*)\s+in\s+" + re.escape(v) + r"\s*\{", m)
                if mt:
                    text = text[:mt.start()] + f"let mut __iv{n} = {v}; while __iv{n}.len() > 0 {{ let {mt.group(1)} = __iv{n}.remove(0);" + text[mt.end():]
                    n += 1
            counts["for_consume"] = counts.get("for_consume", 0) + n
            continue
        if isinstance(r, tuple) and r[0] == "cell":
            ctx.cell_fields = list(r[1])
            fn = rule_cell
            name = "cell"
        else:
            fn = RULES[r]
            name = r
        text, n = fn(text, ctx, where)
        counts[name] = counts.get(name, 0) + n
    return text
