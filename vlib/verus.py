"""Run `verus <file> --output-json --time` and classify the outcome."""
import json
import os
import re
import subprocess
import time

VERUS = os.environ.get("VERUS_BIN", "verus")

KINDS = [
    ("postcondition not satisfied", "ensures"),
    ("precondition not satisfied", "requires-at-call"),
    ("invariant not satisfied at end of loop body", "loop-inv-preserved"),
    ("invariant not satisfied before loop", "loop-inv-entry"),
    ("assertion failed", "assert"),
    ("possible arithmetic underflow/overflow", "arith-overflow"),
    ("possible division by zero", "div-zero"),
    ("decreases not satisfied", "decreases"),
    ("could not prove termination", "decreases"),
    ("loop must have a decreases", "decreases-missing"),
    ("index out of bounds", "index-bounds"),
    ("recursive function must have a decreases", "decreases-missing"),
    ("failed this postcondition", "ensures"),
    ("resource limit", "rlimit"),
    ("unreachable", "unreachable"),
]


def classify(msg):
    low = msg.lower()
    if "rlimit" in low or "resource limit" in low:      # "Resource limit (rlimit) exceeded": the solver gave up — never a verdict on the code
        return "rlimit"
    for k, v in KINDS:
        if k in msg or k in low:
            return v
    return "other"


def run(path, extra_args=(), timeout=600, rlimit=None, seed=None, threads=None):
    args = [VERUS, path, "--output-json", "--time", "--triggers-mode", "silent", "--multiple-errors", "5"]
    if rlimit:
        args += ["--rlimit", str(rlimit)]
    if seed is not None:
        args += ["--smt-option", f"smt.random_seed={seed}"]
    if threads:
        args += ["--num-threads", str(threads)]
    args += list(extra_args)
    t0 = time.time()
    try:
        p = subprocess.run(args, capture_output=True, text=True, timeout=timeout, cwd=os.path.dirname(path))
        out, err, rc = p.stdout, p.stderr, p.returncode
    except subprocess.TimeoutExpired as e:
        return {"status": "timeout", "wall_s": time.time() - t0, "cmd": " ".join(args), "stderr": str(e), "errors": [], "functions": []}
    wall = time.time() - t0
    res = {"cmd": " ".join(args), "wall_s": wall, "rc": rc, "stderr": err, "errors": [], "functions": []}
    js = None
    i = out.find("{")
    if i >= 0:
        try:
            js = json.loads(out[i:])
        except Exception:
            js = None
    # parse rustc-style diagnostics from stderr
    errs = []
    cur = None
    for line in err.splitlines():
        mt = re.match(r"^(error|warning|note)(\[[A-Z0-9]+\])?: (.*)$", line)
        if mt:
            cur = {"level": mt.group(1), "code": mt.group(2), "msg": mt.group(3), "spans": [], "text": [line]}
            errs.append(cur)
            continue
        if cur is not None:
            cur["text"].append(line)
            ms = re.match(r"^\s*--> (.+?):(\d+):(\d+)", line)
            if ms:
                cur["spans"].append((ms.group(1), int(ms.group(2))))
    res["diagnostics"] = errs
    if js is None or "verification-results" not in js:
        res["status"] = "compile-error"
        return res
    vr = js["verification-results"]
    res["verified"] = vr.get("verified", 0)
    res["n_errors"] = vr.get("errors", 0)
    funcs = []
    smt_ms = 0
    try:
        tm = js["times-ms"]
        smt_ms = tm["smt"]["total"]
        for mod in tm["smt"]["smt-run-module-times"]:
            for fb in mod.get("function-breakdown", []):
                funcs.append({"function": fb["function"], "mode": fb.get("mode:", fb.get("mode")), "success": fb["success"],
                              "time_us": fb.get("time-micros", 0), "rlimit": fb.get("rlimit", 0)})
        res["total_ms"] = tm.get("total")
    except Exception:
        pass
    res["functions"] = funcs
    res["smt_ms"] = smt_ms
    if vr.get("encountered-vir-error"):
        res["status"] = "compile-error"
        return res
    verr = [e for e in errs if e["level"] == "error" and not e["msg"].startswith("aborting due to")]
    for e in verr:
        e["kind"] = classify(e["msg"] + " ".join(e["text"]))
    res["errors"] = verr
    if vr.get("success"):
        res["status"] = "ok"
    elif any(not f["success"] for f in funcs) or vr.get("errors", 0) > 0:
        # distinguish rustc errors (type errors) from verification failures:
        # verification failures always come with a function-breakdown entry.
        if not funcs and vr.get("verified", 0) == 0:
            res["status"] = "compile-error"
        else:
            res["status"] = "verification-failed"
    else:
        res["status"] = "compile-error"
    return res
